package informer

// C18 — shared informers live while subscribed to; subscribers are isolated.
//
// The test seam the harnesses rely on is in zz_verif_seam.go (always included)
// and the shadowed informer.go next to it.

import (
	"k8s.io/client-go/tools/cache"

	"metacontroller/pkg/zzverif/env"
	stub "metacontroller/pkg/zzverif/informerstub"
	rt "metacontroller/pkg/zzverif/rt"
)

// ---------------------------------------------------------------------------
// Harnesses. Real code: SharedInformerFactory.Resource (incl. closeFn),
// ResourceInformer.Close/Informer/Lister, newResourceInformer,
// newSharedResourceInformer (through the seam), sharedEventHandler
// (addHandler, removeHandlers, OnAdd/OnUpdate/OnDelete), eventHandler.resync,
// informerWrapper, the real dynamic Clientset + discovery ResourceMap.
// Stubbed: the client-go shared informer and lister (zzverif/informerstub); the
// harness plays the reflector (edits the stub cache, calls the registered
// shared handler).
// ---------------------------------------------------------------------------

// verifC18Install must be the first thing every C18 harness does.
func verifC18Install() {
	verifC18Failed = false
	stub.Reset()
	VerifNewSharedIndexInformer = stub.NewSharedIndexInformer
	VerifNewLister = stub.NewLister
}

// verifAssert is rt.Assert for CONCRETE conditions that are checked before
// further nondeterministic inputs are drawn: a counterexample records the
// inputs drawn up to the failed assertion only, so the harness must stop
// before it asks for more (each harness checks verifC18Failed before every
// draw), otherwise the native replay would run past the recorded inputs.
var verifC18Failed bool

func verifAssert(cond bool, label string) {
	rt.Assert(cond, label)
	if !cond {
		verifC18Failed = true
	}
}

type verifEvent struct {
	kind     int // 0 add, 1 update, 2 delete
	old, new interface{}
	initial  bool
}

// verifRec is a recording cache.ResourceEventHandler.
type verifRec struct {
	adds, updates, deletes int
	log                    []verifEvent
}

func (h *verifRec) OnAdd(obj interface{}, isInInitialList bool) {
	h.adds++
	h.log = append(h.log, verifEvent{kind: 0, new: obj, initial: isInInitialList})
}
func (h *verifRec) OnUpdate(oldObj, newObj interface{}) {
	h.updates++
	h.log = append(h.log, verifEvent{kind: 1, old: oldObj, new: newObj})
}
func (h *verifRec) OnDelete(obj interface{}) {
	h.deletes++
	h.log = append(h.log, verifEvent{kind: 2, old: obj})
}
func (h *verifRec) total() int { return h.adds + h.updates + h.deletes }

// verifEnt: a handler together with what the property says it must have seen.
type verifEnt struct {
	h       *verifRec
	res     int       // resource index (Sequences)
	sub     int       // subscription index
	gen     int       // informer generation it was added to (Sequences)
	owner   *verifSub // subscription it was added through (Sequences)
	removed bool
	// expected
	adds, updates, deletes int
}

func (e *verifEnt) expTotal() int { return e.adds + e.updates + e.deletes }

// verifOnlyKeyOf finds the factory key under which sri is registered.
func verifOnlyKeyOf(f *SharedInformerFactory, sri *sharedResourceInformer) (string, int) {
	key, n := "", 0
	for k, v := range f.sharedInformers {
		if v == sri {
			key = k
			n++
		}
	}
	return key, n
}

// VerifC18_RefCount — reference counting, one inductive step from a count n
// that is a solver variable.
func VerifC18_RefCount() {
	verifC18Install()
	w := env.NewWorld()
	f := NewSharedInformerFactory(w.Dyn, 0)

	// a bystander resource with its own informer and symbolic count
	nOther := 0
	var riO *ResourceInformer
	var m int
	if rt.Bool("bystander-resource") {
		nOther = 1
		// another resource - or the SAME resource at its other served version,
		// which is a subscription (LIST/WATCH, cache, count) of its own
		otherAPIVersion, otherResource := "v1", "configmaps"
		if rt.Bool("bystander-is-the-same-resource-at-another-version") {
			rt.Cover("bystander-other-version")
			otherAPIVersion, otherResource = "ex.com/v2", "things"
		}
		r, err := f.Resource(otherAPIVersion, otherResource)
		verifAssert(err == nil, "bystander/error")
		if err != nil || r == nil {
			return
		}
		riO = r
	}

	ri0, err := f.Resource("ex.com/v1", "things")
	verifAssert(err == nil, "first-subscribe/error")
	verifAssert(ri0 != nil, "first-subscribe/nil-subscription")
	if err != nil || ri0 == nil {
		return
	}
	stub.Settle(1 + nOther)
	stubs := stub.Stubs()
	verifAssert(len(stubs) == 1+nOther, "first-subscribe/informers-created")
	if len(stubs) != 1+nOther {
		return
	}
	st := stubs[nOther]
	sri := ri0.sharedResourceInformer
	verifAssert(sri.informer == cache.SharedIndexInformer(st), "first-subscribe/informer-not-the-created-one")
	verifAssert(st.RunCount() == 1, "first-subscribe/run-count")
	verifAssert(!st.Stopped(), "first-subscribe/stopped")
	verifAssert(st.HandlerCount() == 1, "first-subscribe/shared-handler-registrations")
	verifAssert(st.GVR.Group == "ex.com" && st.GVR.Version == "v1" && st.GVR.Resource == "things", "first-subscribe/lister-gvr")
	key, cnt := verifOnlyKeyOf(f, sri)
	verifAssert(cnt == 1, "first-subscribe/not-registered-once")
	if cnt != 1 {
		return
	}
	verifAssert(len(f.sharedInformers) == 1+nOther, "first-subscribe/informer-map-size")
	verifAssert(len(f.refCount) == 1+nOther, "first-subscribe/count-map-size")
	verifAssert(f.refCount[key] == 1, "first-subscribe/count")

	var stO *stub.StubInformer
	keyO := ""
	if riO != nil {
		stO = stubs[0]
		k, c := verifOnlyKeyOf(f, riO.sharedResourceInformer)
		verifAssert(c == 1 && k != key, "bystander/not-registered-separately")
		keyO = k
		if verifC18Failed {
			return
		}
		m = rt.Int("m")
		rt.Assume(m >= 1)
		rt.Assume(m <= 1000000)
		f.refCount[keyO] = m
	}

	// inductive pre-state: n subscriptions are open
	if verifC18Failed {
		return
	}
	n := rt.Int("n")
	rt.Assume(n >= 1)
	rt.Assume(n <= 1000000)
	f.refCount[key] = n

	switch rt.Choice("op", 3) {
	case 0:
		rt.Cover("subscribe-again")
		ri1, err := f.Resource("ex.com/v1", "things")
		rt.Assert(err == nil, "subscribe/error")
		rt.Assert(ri1 != nil, "subscribe/nil-subscription")
		if err != nil || ri1 == nil {
			return
		}
		stub.Settle(1 + nOther)
		rt.Assert(ri1 != ri0, "subscribe/same-subscription-object")
		rt.Assert(ri1.sharedResourceInformer == sri, "subscribe/not-the-shared-informer")
		rt.Assert(ri1.informerWrapper != ri0.informerWrapper, "subscribe/wrapper-shared-between-subscriptions")
		rt.Assert(ri1.informerWrapper.SharedIndexInformer == cache.SharedIndexInformer(st), "subscribe/wrapper-informer")
		rt.Assert(ri1.Lister() == ri0.Lister(), "subscribe/lister-not-shared")
		rt.Assert(f.refCount[key] == n+1, "subscribe/count-not-n-plus-1")
		rt.Assert(f.sharedInformers[key] == sri, "subscribe/informer-replaced")
		rt.Assert(len(stub.Stubs()) == 1+nOther, "subscribe/second-informer-created")
		rt.Assert(st.RunCount() == 1, "subscribe/second-run")
		rt.Assert(!st.Stopped(), "subscribe/stopped")
		rt.Assert(st.HandlerCount() == 1, "subscribe/shared-handler-registered-again")
	case 1:
		ri0.Close()
		if n > 1 {
			rt.Cover("close-others-remain")
			rt.Assert(f.refCount[key] == n-1, "close-others-remain/count-not-n-minus-1")
			rt.Assert(f.sharedInformers[key] == sri, "close-others-remain/informer-unregistered")
			rt.Assert(!st.Stopped(), "close-others-remain/stopped-while-subscribed")
			rt.Assert(st.RunCount() == 1, "close-others-remain/run-count")
			rt.Assert(len(f.sharedInformers) == 1+nOther, "close-others-remain/informer-map-size")
			rt.Assert(len(f.refCount) == 1+nOther, "close-others-remain/count-map-size")
			// a later subscriber joins the running informer
			ri2, err := f.Resource("ex.com/v1", "things")
			rt.Assert(err == nil && ri2 != nil, "close-others-remain/resubscribe-error")
			if err != nil || ri2 == nil {
				return
			}
			stub.Settle(1 + nOther)
			rt.Assert(ri2.sharedResourceInformer == sri, "close-others-remain/resubscribe-not-shared")
			rt.Assert(f.refCount[key] == n, "close-others-remain/resubscribe-count")
			rt.Assert(len(stub.Stubs()) == 1+nOther, "close-others-remain/resubscribe-second-informer")
			rt.Assert(st.RunCount() == 1, "close-others-remain/resubscribe-second-run")
		} else {
			rt.Cover("close-last")
			rt.Assert(st.Stopped(), "close-last/not-stopped")
			_, ok := f.refCount[key]
			rt.Assert(!ok, "close-last/count-entry-left")
			_, ok = f.sharedInformers[key]
			rt.Assert(!ok, "close-last/informer-entry-left")
			rt.Assert(len(f.sharedInformers) == nOther, "close-last/informer-map-size")
			rt.Assert(len(f.refCount) == nOther, "close-last/count-map-size")
			// a later subscription starts a fresh, working informer
			ri2, err := f.Resource("ex.com/v1", "things")
			rt.Assert(err == nil && ri2 != nil, "resubscribe/error")
			if err != nil || ri2 == nil {
				return
			}
			stub.Settle(2 + nOther)
			stubs2 := stub.Stubs()
			rt.Assert(len(stubs2) == 2+nOther, "resubscribe/no-fresh-informer")
			if len(stubs2) != 2+nOther {
				return
			}
			rt.Cover("fresh-informer-after-last-close")
			st2 := stubs2[1+nOther]
			rt.Assert(st2 != st, "resubscribe/same-informer")
			rt.Assert(st2.RunCount() == 1, "resubscribe/fresh-run-count")
			rt.Assert(!st2.Stopped(), "resubscribe/fresh-already-stopped")
			rt.Assert(st.RunCount() == 1, "resubscribe/old-informer-run-again")
			rt.Assert(st.Stopped(), "resubscribe/old-informer-not-stopped")
			rt.Assert(ri2.sharedResourceInformer != sri, "resubscribe/stale-shared-informer-reused")
			rt.Assert(ri2.sharedResourceInformer.informer == cache.SharedIndexInformer(st2), "resubscribe/informer-not-the-fresh-one")
			rt.Assert(f.sharedInformers[key] == ri2.sharedResourceInformer, "resubscribe/not-registered")
			rt.Assert(f.refCount[key] == 1, "resubscribe/count")
			rt.Assert(st2.HandlerCount() == 1, "resubscribe/shared-handler-registrations")
			if st2.HandlerCount() == 1 {
				h := &verifRec{}
				_, err := ri2.Informer().AddEventHandler(h)
				rt.Assert(err == nil, "resubscribe/add-handler-error")
				obj := env.Thing("ns", "a", "u1")
				st2.Handler(0).OnAdd(obj, false)
				rt.Assert(h.adds == 1 && h.total() == 1, "resubscribe/fresh-informer-does-not-deliver")
				if h.adds == 1 {
					rt.Assert(h.log[0].new == interface{}(obj), "resubscribe/delivered-object")
				}
			}
			// ... and closing that one stops it again (close, re-subscribe, close)
			ri2.Close()
			rt.Assert(st2.Stopped(), "reclose/not-stopped")
			_, ok = f.refCount[key]
			rt.Assert(!ok, "reclose/count-entry-left")
			_, ok = f.sharedInformers[key]
			rt.Assert(!ok, "reclose/informer-entry-left")
		}
	case 2:
		rt.Cover("unknown-resource")
		apiVersion := "ex.com/v1"
		resource := "nosuch"
		if rt.Bool("unknown-apiversion") {
			apiVersion = "nosuch.io/v1"
			resource = "things"
		}
		riX, err := f.Resource(apiVersion, resource)
		rt.Assert(err != nil, "unknown-resource/no-error")
		rt.Assert(riX == nil, "unknown-resource/subscription-returned")
		rt.Assert(len(f.sharedInformers) == 1+nOther, "unknown-resource/informer-registered")
		rt.Assert(len(f.refCount) == 1+nOther, "unknown-resource/count-registered")
		rt.Assert(f.refCount[key] == n, "unknown-resource/count-changed")
		rt.Assert(len(stub.Stubs()) == 1+nOther, "unknown-resource/informer-created")
		rt.Assert(!st.Stopped(), "unknown-resource/stopped")
	}

	// the bystander resource is never affected
	if riO != nil {
		rt.Cover("bystander-checked")
		rt.Assert(f.refCount[keyO] == m, "bystander/count-changed")
		rt.Assert(f.sharedInformers[keyO] == riO.sharedResourceInformer, "bystander/informer-changed")
		rt.Assert(stO.RunCount() == 1, "bystander/run-count")
		rt.Assert(!stO.Stopped(), "bystander/stopped")
	}
	rt.Observe("informers-created", len(stub.Stubs()))
	rt.Observe("runs", stub.TotalRuns())
	rt.Observe("registered", len(f.sharedInformers))
}

var verifC18HandlerTags = [3]string{"handlers-sub0", "handlers-sub1", "handlers-sub2"}

// VerifC18_Handlers — add-time replay, removal and fan-out over three
// subscriptions of one shared informer.
func VerifC18_Handlers() {
	verifC18Install()
	w := env.NewWorld()
	f := NewSharedInformerFactory(w.Dyn, 0)
	var ris [3]*ResourceInformer
	for i := range ris {
		ri, err := f.Resource("ex.com/v1", "things")
		verifAssert(err == nil && ri != nil, "setup/subscribe-error")
		if err != nil || ri == nil {
			return
		}
		ris[i] = ri
	}
	stub.Settle(1)
	stubs := stub.Stubs()
	verifAssert(len(stubs) == 1, "setup/informers-created")
	if len(stubs) != 1 {
		return
	}
	st := stubs[0]
	verifAssert(st.HandlerCount() == 1, "setup/shared-handler-registrations")
	if st.HandlerCount() != 1 {
		return
	}
	shared := st.Handler(0)
	sri := ris[0].sharedResourceInformer

	// what the informer has cached so far
	if verifC18Failed {
		return
	}
	cached := rt.Choice("cached-objects", 3)
	names := [2]string{"a", "b"}
	for j := 0; j < cached; j++ {
		st.Indexer.Items = append(st.Indexer.Items, env.Thing("ns", names[j], "uid-"+names[j]))
	}
	// the informer may still be in the middle of its initial LIST (the objects
	// above stored and dispatched, HasSynced still false): a handler added in
	// that window gets the replay of what is cached all the same
	if rt.Bool("the-initial-list-is-still-in-progress") {
		rt.Cover("handler-added-before-the-informer-synced")
		st.Unsynced = true
	}

	var all []*verifEnt
	// addTo registers a fresh handler through subscription sub and checks the
	// replay: everything cached, as OnUpdate(obj,obj), to the new handler only.
	addTo := func(sub int) {
		h := &verifRec{}
		reg, err := ris[sub].Informer().AddEventHandler(h)
		_ = reg
		verifAssert(err == nil, "add/error")
		items := st.Indexer.Items
		verifAssert(h.updates == len(items), "add/replay-count")
		verifAssert(h.adds == 0 && h.deletes == 0, "add/replay-not-as-update")
		if h.updates == len(items) {
			for j, o := range items {
				verifAssert(h.log[j].kind == 1 && h.log[j].old == interface{}(o) && h.log[j].new == interface{}(o), "add/replay-object")
			}
		}
		for _, e := range all {
			verifAssert(e.h.total() == e.expTotal(), "add/replayed-to-an-existing-handler")
		}
		all = append(all, &verifEnt{h: h, sub: sub, updates: len(items)})
	}
	for sub := 0; sub < 3; sub++ {
		if verifC18Failed {
			return
		}
		c := rt.Choice(verifC18HandlerTags[sub], 3)
		for j := 0; j < c; j++ {
			addTo(sub)
		}
	}
	if len(all) > 0 {
		rt.Cover("handlers-registered")
		if cached > 0 {
			rt.Cover("replay-of-cached-objects")
		}
	}

	if verifC18Failed {
		return
	}
	victim := -1
	op := rt.Choice("op", 5)
	if op != 0 {
		victim = rt.Choice("victim", 3)
	}
	switch op {
	case 0:
		rt.Cover("op-none")
	case 1:
		rt.Cover("op-remove-handlers")
		ris[victim].Informer().RemoveEventHandlers()
	case 2:
		// closing a subscription (others remain) removes nobody's handlers
		rt.Cover("op-close-only")
		ris[victim].Close()
	case 3:
		rt.Cover("op-remove-then-close")
		ris[victim].Informer().RemoveEventHandlers()
		ris[victim].Close()
	case 4:
		// removal does not disable the subscription: it can add handlers again
		rt.Cover("op-remove-then-add")
		ris[victim].Informer().RemoveEventHandlers()
	}
	if op == 1 || op == 3 || op == 4 {
		for _, e := range all {
			if e.sub == victim {
				e.removed = true
				rt.Cover("handler-removed")
			}
		}
	}
	if op == 4 {
		addTo(victim)
	}
	if op == 2 || op == 3 {
		verifAssert(!st.Stopped(), "close/stopped-while-others-subscribed")
		verifAssert(f.refCount[resourceKey("ex.com/v1", "things")] == 2, "close/count")
	}

	// structural: handlers are grouped by the subscription that added them
	for sub := 0; sub < 3; sub++ {
		want := 0
		for _, e := range all {
			if e.sub == sub && !e.removed {
				want++
			}
		}
		verifAssert(len(sri.eventHandlers.handlers[ris[sub].informerWrapper]) == want, "registry/handlers-of-subscription")
	}

	// the informer reports one event of each kind
	check := func(what string) {
		for _, e := range all {
			ok := e.h.adds == e.adds && e.h.updates == e.updates && e.h.deletes == e.deletes
			switch {
			case e.removed:
				verifAssert(ok, "deliver-"+what+"/removed-handler-received-event")
			case e.sub == victim:
				verifAssert(ok, "deliver-"+what+"/handler-of-operated-subscription-missed-or-duplicated")
			default:
				verifAssert(ok, "deliver-"+what+"/handler-of-other-subscription-missed-or-duplicated")
			}
		}
	}
	expect := func(kind int) {
		for _, e := range all {
			if e.removed {
				continue
			}
			rt.Cover("event-delivered-to-handler")
			switch kind {
			case 0:
				e.adds++
			case 1:
				e.updates++
			case 2:
				e.deletes++
			}
		}
	}
	objC := env.Thing("ns", "c", "uid-c")
	st.Indexer.Items = append(st.Indexer.Items, objC)
	shared.OnAdd(objC, false)
	expect(0)
	check("add")
	objC2 := env.Thing("ns", "c", "uid-c")
	shared.OnUpdate(objC, objC2)
	expect(1)
	check("update")
	for _, e := range all {
		if !e.removed && len(e.h.log) > 0 {
			l := e.h.log[len(e.h.log)-1]
			verifAssert(l.kind == 1 && l.old == interface{}(objC) && l.new == interface{}(objC2), "deliver-update/objects")
		}
	}
	st.Indexer.Items = st.Indexer.Items[:len(st.Indexer.Items)-1]
	// a deletion the watch missed arrives after a relist as a tombstone
	// (cache.DeletedFinalStateUnknown): it is an event like any other
	var deleted interface{} = objC2
	if verifC18Failed {
		return
	}
	if rt.Bool("delete-arrives-as-tombstone") {
		rt.Cover("delete-as-tombstone")
		deleted = cache.DeletedFinalStateUnknown{Key: "ns/c", Obj: objC2}
	}
	shared.OnDelete(deleted)
	expect(2)
	check("delete")
	for _, e := range all {
		if !e.removed && len(e.h.log) > 0 {
			l := e.h.log[len(e.h.log)-1]
			verifAssert(l.kind == 2, "deliver-delete/object")
			if tomb, ok := l.old.(cache.DeletedFinalStateUnknown); ok {
				verifAssert(tomb.Obj == interface{}(objC2) && tomb.Key == "ns/c", "deliver-delete/tombstone-content")
			} else {
				verifAssert(l.old == interface{}(objC2), "deliver-delete/object")
			}
		}
	}

	// a handler added late (by a subscription that is still open) gets the
	// current cache and disturbs nobody
	late := 0
	if victim == 0 {
		late = 1
	}
	addTo(late)
	check("late-add")

	sum := 0
	for _, e := range all {
		sum += e.h.total()
	}
	rt.Observe("events-received-in-total", sum)
	rt.Observe("handlers", len(all))
	rt.Observe("runs", stub.TotalRuns())
}

// ---- bounded operation sequences against a ghost model ----

type verifSub struct {
	ri       *ResourceInformer
	gen      int
	handlers int // added through it and not removed
}

type verifRes struct {
	apiVersion, resource string
	slots                []*verifSub // nil = no open subscription in that slot
	open                 int         // ghost: open subscriptions
	gen                  int         // ghost: informers started so far
	delivered            int
}

type verifOp struct{ kind, r, s int }

const (
	verifOpSubscribe = iota
	verifOpAddHandler
	verifOpRemoveHandlers
	verifOpClose
	verifOpDeliver
)

var verifC18OpTags = [8]string{"op0", "op1", "op2", "op3", "op4", "op5", "op6", "op7"}

func verifStubsOf(resource string) []*stub.StubInformer {
	var out []*stub.StubInformer
	for _, s := range stub.Stubs() {
		if s.GVR.Resource == resource {
			out = append(out, s)
		}
	}
	return out
}

// VerifC18_Sequences — every sequence of subscribe / add handler / remove
// handlers / close / deliver event up to the tier's length, over 2 resources
// with 2 (quick) or 3 (thorough) subscriber slots each.
func VerifC18_Sequences() {
	verifC18Install()
	w := env.NewWorld()
	f := NewSharedInformerFactory(w.Dyn, 0)
	steps, nslots := 5, 2
	if rt.Tier() > 0 {
		steps, nslots = 6, 3
	}
	rs := []*verifRes{
		{apiVersion: "ex.com/v1", resource: "things", slots: make([]*verifSub, nslots)},
		{apiVersion: "v1", resource: "configmaps", slots: make([]*verifSub, nslots)},
	}
	var all []*verifEnt
	totalGens := 0
	nobj := 0

	for step := 0; step < steps; step++ {
		if verifC18Failed {
			return
		}
		// the operations that make sense in this state (slots of one resource
		// are interchangeable: subscribe takes the lowest free one; the very
		// first operation is on resource 0)
		var ops []verifOp
		for r, x := range rs {
			if step == 0 && r > 0 {
				continue
			}
			for s, sub := range x.slots {
				if sub == nil {
					ops = append(ops, verifOp{verifOpSubscribe, r, s})
					break
				}
			}
			for s, sub := range x.slots {
				if sub == nil {
					continue
				}
				if sub.handlers < 2 {
					ops = append(ops, verifOp{verifOpAddHandler, r, s})
				}
				if sub.handlers > 0 {
					ops = append(ops, verifOp{verifOpRemoveHandlers, r, s})
				}
				ops = append(ops, verifOp{verifOpClose, r, s})
			}
			if x.open > 0 {
				have := false
				for _, e := range all {
					if e.res == r && e.gen == x.gen {
						have = true
					}
				}
				if have {
					ops = append(ops, verifOp{verifOpDeliver, r, 0})
				}
			}
		}
		o := ops[rt.Choice(verifC18OpTags[step], len(ops))]
		x := rs[o.r]

		switch o.kind {
		case verifOpSubscribe:
			ri, err := f.Resource(x.apiVersion, x.resource)
			verifAssert(err == nil && ri != nil, "seq-subscribe/error")
			if err != nil || ri == nil {
				return
			}
			if x.open == 0 {
				rt.Cover("seq-informer-started")
				if x.gen > 0 {
					rt.Cover("seq-informer-restarted")
				}
				x.gen++
				totalGens++
			} else {
				rt.Cover("seq-subscribed-to-running-informer")
			}
			x.open++
			x.slots[o.s] = &verifSub{ri: ri, gen: x.gen}
		case verifOpAddHandler:
			sub := x.slots[o.s]
			h := &verifRec{}
			_, err := sub.ri.Informer().AddEventHandler(h)
			verifAssert(err == nil, "seq-add/error")
			sub.handlers++
			e := &verifEnt{h: h, res: o.r, sub: o.s, gen: sub.gen, owner: sub}
			// replay of everything the running informer has cached
			cur := verifStubsOf(x.resource)
			if len(cur) == x.gen && x.gen > 0 {
				e.updates = len(cur[x.gen-1].Indexer.Items)
				if e.updates > 0 {
					rt.Cover("seq-replay-on-add")
				}
			}
			all = append(all, e)
		case verifOpRemoveHandlers:
			rt.Cover("seq-handlers-removed")
			sub := x.slots[o.s]
			sub.ri.Informer().RemoveEventHandlers()
			sub.handlers = 0
			for _, e := range all {
				if e.owner == sub {
					e.removed = true
				}
			}
		case verifOpClose:
			sub := x.slots[o.s]
			sub.ri.Close()
			x.slots[o.s] = nil
			x.open--
			if x.open == 0 {
				rt.Cover("seq-last-close")
			} else {
				rt.Cover("seq-close-others-remain")
			}
			// handlers it did not remove stay registered on the shared informer
			// (Close only gives up the subscription)
		case verifOpDeliver:
			cur := verifStubsOf(x.resource)
			verifAssert(len(cur) == x.gen, "seq-deliver/generations")
			if len(cur) != x.gen {
				return
			}
			st := cur[x.gen-1]
			verifAssert(st.HandlerCount() == 1, "seq-deliver/shared-handler-registrations")
			if st.HandlerCount() != 1 {
				return
			}
			shared := st.Handler(0)
			kind := x.delivered % 3
			x.delivered++
			nobj++
			obj := env.Obj(x.apiVersion, "K", "ns", "o", "uid")
			switch kind {
			case 0:
				st.Indexer.Items = append(st.Indexer.Items, obj)
				shared.OnAdd(obj, false)
			case 1:
				shared.OnUpdate(obj, obj)
			case 2:
				if len(st.Indexer.Items) > 0 {
					st.Indexer.Items = st.Indexer.Items[:len(st.Indexer.Items)-1]
				}
				shared.OnDelete(obj)
			}
			for _, e := range all {
				if e.res == o.r && e.gen == x.gen && !e.removed {
					rt.Cover("seq-event-delivered")
					switch kind {
					case 0:
						e.adds++
					case 1:
						e.updates++
					case 2:
						e.deletes++
					}
				}
			}
		}

		// ---- invariants after every step ----
		stub.Settle(totalGens)
		running := 0
		for _, x := range rs {
			key := resourceKey(x.apiVersion, x.resource)
			cur := verifStubsOf(x.resource)
			verifAssert(len(cur) == x.gen, "seq/informers-started-differs-from-generations")
			for g, s := range cur {
				verifAssert(s.RunCount() == 1, "seq/informer-not-run-exactly-once")
				if g < len(cur)-1 {
					verifAssert(s.Stopped(), "seq/superseded-informer-still-running")
				}
			}
			sri, registered := f.sharedInformers[key]
			cnt, counted := f.refCount[key]
			if x.open > 0 {
				running++
				verifAssert(registered, "seq/subscribed-but-not-registered")
				verifAssert(counted && cnt == x.open, "seq/count-differs-from-open-subscriptions")
				if len(cur) == x.gen && x.gen > 0 {
					verifAssert(!cur[x.gen-1].Stopped(), "seq/stopped-while-subscribed")
					if registered {
						verifAssert(sri.informer == cache.SharedIndexInformer(cur[x.gen-1]), "seq/registered-informer-is-not-the-running-one")
					}
				}
				for _, sub := range x.slots {
					if sub != nil && registered {
						verifAssert(sub.ri.sharedResourceInformer == sri, "seq/subscription-on-a-stale-informer")
					}
				}
			} else {
				verifAssert(!registered, "seq/registered-without-subscribers")
				verifAssert(!counted, "seq/counted-without-subscribers")
				if len(cur) == x.gen && x.gen > 0 {
					verifAssert(cur[x.gen-1].Stopped(), "seq/running-without-subscribers")
				}
			}
		}
		verifAssert(len(f.sharedInformers) == running, "seq/informer-map-size")
		verifAssert(len(f.refCount) == running, "seq/count-map-size")
		for _, e := range all {
			ok := e.h.adds == e.adds && e.h.updates == e.updates && e.h.deletes == e.deletes
			if e.removed {
				verifAssert(ok, "seq/removed-handler-received-event")
			} else {
				verifAssert(ok, "seq/handler-deliveries-differ")
			}
		}
	}
	sum := 0
	for _, e := range all {
		sum += e.h.total()
	}
	rt.Observe("events-received-in-total", sum)
	rt.Observe("informers-created", len(stub.Stubs()))
	rt.Observe("runs", stub.TotalRuns())
	rt.Observe("registered", len(f.sharedInformers))
}

package informer

// C18 — the per-handler resync timer (AddEventHandlerWithResyncPeriod with a
// period below the relist period): the handler gets a replay of the cache on
// every tick until its subscription removes it, and NOTHING after
// RemoveEventHandlers() has returned, even when the removal arrives while a
// resync of that handler is in flight; the other subscriber is unaffected.
//
// Goroutines: the executor runs the timer goroutine cooperatively (it is parked
// at its select and resumed when the harness thread blocks or lets time pass,
// rt.FireTickers), natively the real goroutine and a real 2 ms ticker run. The
// scenario pins the interleaving with channels, so both runs take the same
// schedule: the handler blocks inside the first resync delivery until the
// harness opens the gate.

import (
	"sync"
	"time"

	"k8s.io/apimachinery/pkg/apis/meta/v1/unstructured"
	"k8s.io/apimachinery/pkg/runtime/schema"

	"metacontroller/pkg/zzverif/env"
	stub "metacontroller/pkg/zzverif/informerstub"
	rt "metacontroller/pkg/zzverif/rt"
)

type verifGated struct {
	mu           sync.Mutex
	updates      int
	others       int
	afterRemoved int
	removed      bool
	armed        bool
	entered      chan struct{}
	gate         chan struct{}
}

func verifNewGated() *verifGated {
	return &verifGated{entered: make(chan struct{}, 1), gate: make(chan struct{})}
}

func (h *verifGated) note(update bool) bool {
	h.mu.Lock()
	defer h.mu.Unlock()
	if update {
		h.updates++
	} else {
		h.others++
	}
	if h.removed {
		h.afterRemoved++
	}
	a := h.armed
	h.armed = false
	return a
}
func (h *verifGated) OnAdd(obj interface{}, isInInitialList bool) { h.note(false) }
func (h *verifGated) OnDelete(obj interface{})                    { h.note(false) }
func (h *verifGated) OnUpdate(oldObj, newObj interface{}) {
	if h.note(true) {
		h.entered <- struct{}{}
		<-h.gate
	}
}
func (h *verifGated) snapshot() (updates, others, afterRemoved int) {
	h.mu.Lock()
	defer h.mu.Unlock()
	return h.updates, h.others, h.afterRemoved
}
func (h *verifGated) set(armed, removed bool) {
	h.mu.Lock()
	defer h.mu.Unlock()
	h.armed = h.armed || armed
	h.removed = h.removed || removed
}

func verifClosed(ch chan struct{}) bool {
	select {
	case <-ch:
		return true
	default:
		return false
	}
}

func VerifC18_ResyncTimer() {
	verifC18Install()
	w := env.NewWorld()
	// relist period one hour: a handler period of 2 ms is "more frequent"
	f := NewSharedInformerFactory(w.Dyn, time.Hour)
	riA, errA := f.Resource("ex.com/v1", "things")
	riB, errB := f.Resource("ex.com/v1", "things")
	verifAssert(errA == nil && errB == nil && riA != nil && riB != nil, "resync/subscribe-error")
	if verifC18Failed {
		return
	}
	stub.Settle(1)
	stubs := stub.Stubs()
	verifAssert(len(stubs) == 1 && stubs[0].HandlerCount() == 1, "resync/setup")
	if verifC18Failed {
		return
	}
	st := stubs[0]
	shared := st.Handler(0)
	nObj := 1 + rt.Choice("cached-objects", 2)
	var objs []*unstructured.Unstructured
	for j := 0; j < nObj; j++ {
		o := env.Thing("ns", string(rune('a'+j)), "uid")
		objs = append(objs, o)
		st.Indexer.Items = append(st.Indexer.Items, o)
	}
	ownPeriod := rt.Bool("handler-has-own-resync-period")
	inFlight := ownPeriod && rt.Bool("removal-arrives-while-a-resync-is-in-flight")

	hA, hB := verifNewGated(), verifNewGated()
	// the subscription may hold a plain handler (no timer) added BEFORE the one
	// with its own period: removal stops every timer of the subscription, in
	// whatever order the handlers were added
	hP := verifNewGated()
	plainFirst := ownPeriod && rt.Bool("a-plain-handler-was-added-to-the-subscription-before")
	if plainFirst {
		rt.Cover("resync/plain-handler-first")
		riA.Informer().AddEventHandler(hP)
	}
	if ownPeriod {
		riA.Informer().AddEventHandlerWithResyncPeriod(hA, 2*time.Millisecond)
	} else {
		riA.Informer().AddEventHandler(hA)
	}
	riB.Informer().AddEventHandler(hB)
	// add-time replay (sent synchronously by addHandler)
	uA0, _, _ := hA.snapshot()
	uB0, _, _ := hB.snapshot()
	verifAssert(uB0 == nObj, "resync/add-time-replay-missing")
	verifAssert(uA0 >= nObj, "resync/add-time-replay-missing")

	if inFlight {
		hA.set(true, false) // the next delivery to hA blocks inside the handler
	}
	rt.FireTickers() // time passes
	uA1, _, _ := hA.snapshot()
	uB1, _, _ := hB.snapshot()
	verifAssert(uB1 == nObj, "resync/plain-handler-got-a-timer-resync")
	if ownPeriod {
		rt.Cover("resync/own-period")
		verifAssert(uA1 > uA0, "resync/no-timer-resync-delivered")
	} else {
		verifAssert(uA1 == uA0, "resync/plain-handler-got-a-timer-resync")
	}
	if verifC18Failed {
		return
	}

	removedCh := make(chan struct{})
	returnedEarly := false
	if inFlight {
		rt.Cover("resync/removal-during-resync")
		<-hA.entered // the timer goroutine is inside hA.OnUpdate now
		go func() {
			riA.Informer().RemoveEventHandlers()
			hA.set(false, true)
			hP.set(false, true)
			close(removedCh)
		}()
		time.Sleep(20 * time.Millisecond)
		returnedEarly = verifClosed(removedCh)
		close(hA.gate) // the handler returns; the resync goes on
		<-removedCh
	} else {
		riA.Informer().RemoveEventHandlers()
		hA.set(false, true)
		hP.set(false, true)
		close(removedCh)
	}
	// the removal waits for a resync in flight: it cannot return before the gate opens
	verifAssert(!returnedEarly, "resync/RemoveEventHandlers-returned-while-a-resync-of-its-handler-was-in-flight")

	// later: time passes, an object changes
	rt.FireTickers()
	shared.OnUpdate(objs[0], objs[0])
	rt.FireTickers()
	_, _, lateA := hA.snapshot()
	verifAssert(lateA == 0, "resync/event-delivered-after-RemoveEventHandlers-returned")
	_, _, lateP := hP.snapshot()
	verifAssert(lateP == 0, "resync/event-delivered-after-RemoveEventHandlers-returned")
	uB2, _, lateB := hB.snapshot()
	verifAssert(uB2 == nObj+1 && lateB == 0, "resync/other-subscriber-affected-by-removal")
	if rt.Symbolic() {
		verifAssert(rt.LiveGoroutines() == 0, "resync/timer-goroutine-alive-after-RemoveEventHandlers")
	}
	riA.Close()
	riB.Close()
	stub.Settle(1)
	verifAssert(st.Stopped(), "resync/informer-not-stopped-after-last-close")
}

// VerifC18_AddDuringEvent: a handler is added while the informer dispatches an
// event: the object enters the cache and is announced right after the add-time
// replay took its snapshot. The new handler must still hear about it (replay
// and registration are atomic with respect to event delivery), exactly once,
// and so must the handler that was there before.
func VerifC18_AddDuringEvent() {
	verifC18Install()
	w := env.NewWorld()
	f := NewSharedInformerFactory(w.Dyn, 0)
	riA, errA := f.Resource("ex.com/v1", "things")
	riB, errB := f.Resource("ex.com/v1", "things")
	verifAssert(errA == nil && errB == nil && riA != nil && riB != nil, "add-during-event/subscribe-error")
	if verifC18Failed {
		return
	}
	stub.Settle(1)
	stubs := stub.Stubs()
	verifAssert(len(stubs) == 1 && stubs[0].HandlerCount() == 1, "add-during-event/setup")
	if verifC18Failed {
		return
	}
	st := stubs[0]
	shared := st.Handler(0)
	a := env.Thing("ns", "a", "uid-a")
	b := env.Thing("ns", "b", "uid-b")
	st.Indexer.Items = append(st.Indexer.Items, a)
	withOld := rt.Bool("another-handler-is-registered-already")
	hA, hB := verifNewGated(), verifNewGated()
	if withOld {
		riA.Informer().AddEventHandler(hA)
	}
	delivered := make(chan struct{})
	// (hooked on the cache itself: whether the replay reads it through the lister
	// or straight from the store is the implementation's business)
	st.Indexer.AfterSnapshot = func() {
		// the reflector stores b and the informer announces it, concurrently
		st.Indexer.Items = append(st.Indexer.Items, b)
		go func() {
			shared.OnAdd(b, false)
			close(delivered)
		}()
		// give the dispatcher every chance to run before the replay goes on
		time.Sleep(30 * time.Millisecond)
	}
	riB.Informer().AddEventHandler(hB)
	<-delivered
	uB, oB, _ := hB.snapshot()
	// hB: replay of a (update) + b once, either live (add) or, had it been in the snapshot, as replay
	verifAssert(uB+oB == 2, "add-during-event/new-handler-missed-or-duplicated-the-concurrent-event")
	if withOld {
		uA, oA, _ := hA.snapshot()
		verifAssert(uA == 1 && oA == 1, "add-during-event/existing-handler-missed-the-event")
	}
	rt.Cover("add-during-event/done")
	riA.Close()
	riB.Close()
}

// VerifC18_ConcurrentFirstSubscribers: two controllers make the FIRST
// subscription to the same resource at the same time - the second arrives
// while the first is between its look-up and the creation of the informer
// (pinned: it is started from inside the first one's client construction).
// One underlying informer runs, both subscriptions share it, and it is stopped
// when the last of them (and a third, later one) closes.
func VerifC18_ConcurrentFirstSubscribers() {
	verifC18Install()
	w := env.NewWorld()
	f := NewSharedInformerFactory(w.Dyn, 0)
	var riB *ResourceInformer
	var errB error
	done := make(chan struct{})
	fired := false
	w.Srv.OnResource = func(gvr schema.GroupVersionResource) {
		if fired || gvr.Resource != "things" {
			return
		}
		fired = true
		go func() {
			riB, errB = f.Resource("ex.com/v1", "things")
			close(done)
		}()
		time.Sleep(20 * time.Millisecond) // give the second subscriber every chance to get in
	}
	riA, errA := f.Resource("ex.com/v1", "things")
	<-done
	verifAssert(errA == nil && errB == nil && riA != nil && riB != nil, "concurrent-first/subscribe-error")
	if verifC18Failed {
		return
	}
	stub.Settle(1)
	stubs := stub.Stubs()
	verifAssert(len(stubs) == 1, "concurrent-first/more-than-one-underlying-informer-created")
	verifAssert(f.VerifRefCount("ex.com/v1", "things") == 2, "concurrent-first/subscription-count")
	verifAssert(riA.VerifUnderlying() == riB.VerifUnderlying(), "concurrent-first/subscribers-do-not-share-the-informer")
	if verifC18Failed {
		return
	}
	// a third, later subscriber; the first two leave: the informer keeps running for it
	riC, errC := f.Resource("ex.com/v1", "things")
	verifAssert(errC == nil && riC != nil, "concurrent-first/third-subscribe-error")
	if verifC18Failed {
		return
	}
	riA.Close()
	riB.Close()
	verifAssert(!stubs[0].Stopped(), "concurrent-first/informer-stopped-while-a-subscription-is-open")
	hC := &verifRec{}
	riC.Informer().AddEventHandler(hC)
	stubs[0].Handler(0).OnAdd(env.Thing("ns", "x", "ux"), false)
	verifAssert(hC.adds == 1, "concurrent-first/remaining-subscriber-gets-no-events")
	riC.Close()
	stub.Settle(1)
	for _, s := range stub.Stubs() {
		verifAssert(s.Stopped(), "concurrent-first/informer-left-running-after-the-last-close")
	}
	verifAssert(f.VerifRunning() == 0, "concurrent-first/shared-informer-still-held")
	rt.Cover("concurrent-first/done")
}

// VerifC18_RemoveDuringDispatch: RemoveEventHandlers() arrives while the shared
// informer is in the middle of dispatching an event to the handlers of that
// very subscription (the first handler is still running, the second has not
// been called yet). Whatever the implementation does - wait for the dispatch
// or cut it short - NO handler of the subscription is invoked after the
// removal has returned (C18 "after which it receives nothing"; C20 "after a
// stop no further hook call is made on its behalf": the customize manager's
// related-object handlers call the customize hook).
func VerifC18_RemoveDuringDispatch() {
	verifC18Install()
	w := env.NewWorld()
	f := NewSharedInformerFactory(w.Dyn, 0)
	riA, errA := f.Resource("ex.com/v1", "things")
	riB, errB := f.Resource("ex.com/v1", "things")
	verifAssert(errA == nil && errB == nil && riA != nil && riB != nil, "remove-during-dispatch/subscribe-error")
	if verifC18Failed {
		return
	}
	stub.Settle(1)
	stubs := stub.Stubs()
	verifAssert(len(stubs) == 1 && stubs[0].HandlerCount() == 1, "remove-during-dispatch/setup")
	if verifC18Failed {
		return
	}
	shared := stubs[0].Handler(0)
	// 2..3 handlers on the subscription; the one that is running when the removal
	// arrives is any but the last (so at least one has not been called yet)
	nH := 2 + rt.Choice("handlers-of-the-subscription", 2)
	blocked := rt.Choice("handler-running-when-the-removal-arrives", nH-1)
	var hs []*verifGated
	for i := 0; i < nH; i++ {
		h := verifNewGated()
		hs = append(hs, h)
		riA.Informer().AddEventHandler(h)
	}
	hB := verifNewGated()
	riB.Informer().AddEventHandler(hB)
	a := env.Thing("ns", "a", "uid-a")
	lateCalls := func() int {
		n := 0
		for _, h := range hs {
			_, _, late := h.snapshot()
			n += late
		}
		return n
	}

	hs[blocked].set(true, false) // the delivery to this handler blocks inside it
	delivered := make(chan struct{})
	go func() {
		shared.OnUpdate(a, a)
		close(delivered)
	}()
	<-hs[blocked].entered // the dispatcher is inside that handler; the later ones have not been called
	removedCh := make(chan struct{})
	go func() {
		riA.Informer().RemoveEventHandlers()
		for _, h := range hs {
			h.set(false, true)
		}
		close(removedCh)
	}()
	time.Sleep(20 * time.Millisecond) // the removal runs as far as it can
	if verifClosed(removedCh) {
		rt.Cover("remove-during-dispatch/removal-did-not-wait")
	} else {
		rt.Cover("remove-during-dispatch/removal-waited")
	}
	close(hs[blocked].gate)
	<-delivered
	<-removedCh
	verifAssert(lateCalls() == 0, "remove-during-dispatch/handler-invoked-after-RemoveEventHandlers-returned")
	// later events reach the other subscriber only
	shared.OnUpdate(a, a)
	verifAssert(lateCalls() == 0, "remove-during-dispatch/handler-invoked-after-RemoveEventHandlers-returned")
	uB, _, _ := hB.snapshot()
	verifAssert(uB == 2, "remove-during-dispatch/other-subscriber-affected")
	rt.Cover("remove-during-dispatch/done")
	riA.Close()
	riB.Close()
}

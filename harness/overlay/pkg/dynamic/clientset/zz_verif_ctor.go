package clientset

import (
	"k8s.io/client-go/dynamic"

	dynamicdiscovery "metacontroller/pkg/dynamic/discovery"
)

func VerifNewResourceClient(root dynamic.NamespaceableResourceInterface, res *dynamicdiscovery.APIResource) *ResourceClient {
	return &ResourceClient{ResourceInterface: root, APIResource: res, rootClient: root}
}

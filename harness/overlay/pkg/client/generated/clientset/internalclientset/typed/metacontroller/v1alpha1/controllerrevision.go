// VERIFICATION OVERLAY — replaces the client-gen generated REST plumbing of
// controllerrevision.go (fluent rest.Interface request builders, codecs) by a
// dispatch to an in-memory backend, so that the hand-written
// controllerrevision_expansion.go (UpdateWithRetries) runs for real, both under
// the symbolic executor and natively. Interfaces and the struct are unchanged.

package v1alpha1

import (
	"context"
	"fmt"

	v1alpha1 "metacontroller/pkg/apis/metacontroller/v1alpha1"

	v1 "k8s.io/apimachinery/pkg/apis/meta/v1"
	types "k8s.io/apimachinery/pkg/types"
	watch "k8s.io/apimachinery/pkg/watch"
	rest "k8s.io/client-go/rest"
)

// ControllerRevisionsGetter has a method to return a ControllerRevisionInterface.
type ControllerRevisionsGetter interface {
	ControllerRevisions(namespace string) ControllerRevisionInterface
}

// ControllerRevisionInterface has methods to work with ControllerRevision resources.
type ControllerRevisionInterface interface {
	Create(ctx context.Context, controllerRevision *v1alpha1.ControllerRevision, opts v1.CreateOptions) (*v1alpha1.ControllerRevision, error)
	Update(ctx context.Context, controllerRevision *v1alpha1.ControllerRevision, opts v1.UpdateOptions) (*v1alpha1.ControllerRevision, error)
	Delete(ctx context.Context, name string, opts v1.DeleteOptions) error
	DeleteCollection(ctx context.Context, opts v1.DeleteOptions, listOpts v1.ListOptions) error
	Get(ctx context.Context, name string, opts v1.GetOptions) (*v1alpha1.ControllerRevision, error)
	List(ctx context.Context, opts v1.ListOptions) (*v1alpha1.ControllerRevisionList, error)
	Watch(ctx context.Context, opts v1.ListOptions) (watch.Interface, error)
	Patch(ctx context.Context, name string, pt types.PatchType, data []byte, opts v1.PatchOptions, subresources ...string) (result *v1alpha1.ControllerRevision, err error)
	ControllerRevisionExpansion
}

// VerifRevisionBackend is the in-memory store behind the overlay.
type VerifRevisionBackend interface {
	RevCreate(ns string, cr *v1alpha1.ControllerRevision) (*v1alpha1.ControllerRevision, error)
	RevUpdate(ns string, cr *v1alpha1.ControllerRevision) (*v1alpha1.ControllerRevision, error)
	RevDelete(ns, name string, opts v1.DeleteOptions) error
	RevGet(ns, name string) (*v1alpha1.ControllerRevision, error)
}

// verifCarrier smuggles the backend through the rest.Interface-typed field.
type verifCarrier struct {
	rest.Interface
	b VerifRevisionBackend
}

// VerifNewControllerRevisions returns the real controllerRevisions type over a backend.
func VerifNewControllerRevisions(b VerifRevisionBackend, namespace string) ControllerRevisionInterface {
	return &controllerRevisions{client: verifCarrier{b: b}, ns: namespace}
}

// controllerRevisions implements ControllerRevisionInterface
type controllerRevisions struct {
	client rest.Interface
	ns     string
}

func newControllerRevisions(c *MetacontrollerV1alpha1Client, namespace string) *controllerRevisions {
	return &controllerRevisions{client: c.RESTClient(), ns: namespace}
}

func (c *controllerRevisions) backend() VerifRevisionBackend {
	vc, ok := c.client.(verifCarrier)
	if !ok {
		panic("verification overlay: controllerRevisions without an in-memory backend")
	}
	return vc.b
}

func (c *controllerRevisions) Get(ctx context.Context, name string, options v1.GetOptions) (result *v1alpha1.ControllerRevision, err error) {
	return c.backend().RevGet(c.ns, name)
}

func (c *controllerRevisions) List(ctx context.Context, opts v1.ListOptions) (result *v1alpha1.ControllerRevisionList, err error) {
	if l, ok := c.backend().(interface {
		RevList(ns string, labelSelector string) (*v1alpha1.ControllerRevisionList, error)
	}); ok {
		return l.RevList(c.ns, opts.LabelSelector)
	}
	return nil, fmt.Errorf("verification overlay: List not modelled by this backend")
}

func (c *controllerRevisions) Watch(ctx context.Context, opts v1.ListOptions) (watch.Interface, error) {
	return nil, fmt.Errorf("verification overlay: Watch not modelled")
}

func (c *controllerRevisions) Create(ctx context.Context, controllerRevision *v1alpha1.ControllerRevision, opts v1.CreateOptions) (result *v1alpha1.ControllerRevision, err error) {
	return c.backend().RevCreate(c.ns, controllerRevision)
}

func (c *controllerRevisions) Update(ctx context.Context, controllerRevision *v1alpha1.ControllerRevision, opts v1.UpdateOptions) (result *v1alpha1.ControllerRevision, err error) {
	return c.backend().RevUpdate(c.ns, controllerRevision)
}

func (c *controllerRevisions) Delete(ctx context.Context, name string, opts v1.DeleteOptions) error {
	return c.backend().RevDelete(c.ns, name, opts)
}

func (c *controllerRevisions) DeleteCollection(ctx context.Context, opts v1.DeleteOptions, listOpts v1.ListOptions) error {
	return fmt.Errorf("verification overlay: DeleteCollection not modelled")
}

func (c *controllerRevisions) Patch(ctx context.Context, name string, pt types.PatchType, data []byte, opts v1.PatchOptions, subresources ...string) (result *v1alpha1.ControllerRevision, err error) {
	return nil, fmt.Errorf("verification overlay: Patch not modelled")
}

#!/bin/sh
# Builds the checker offline from files on disk only.
set -e
here=$(cd "$(dirname "$0")" && pwd)
cd "$here/engine"
export GOFLAGS=-mod=mod GOPROXY=off GOSUMDB=off GOTOOLCHAIN=local
mkdir -p "$here/bin"
go build -o "$here/bin/vcheck" ./cmd/vcheck

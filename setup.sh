#!/bin/sh
set -e
cd /verif/engine
export GOFLAGS=-mod=mod GOPROXY=off GOSUMDB=off GOTOOLCHAIN=local
go build -o /verif/bin/vcheck ./cmd/vcheck

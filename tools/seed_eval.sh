#!/bin/sh
# Evaluates a seeded breaking change: confirms that it compiles, that the
# existing suite still passes, that the demonstration fails with it and passes
# without it, and runs the given property checks against it.
#   usage: tools/seed_eval.sh <seed dir with patch.diff + demo_test.go> <property id>...
# Everything happens in a scratch worktree of /repo (removed afterwards); the
# checks are pointed at it with VERIF_REPO and write evidence/replays to a
# scratch directory, so /repo, evidence/ and replays/ stay untouched.
set -u
here=$(cd "$(dirname "$0")/.." && pwd)
seed=$(cd "$1" && pwd); shift
wt=$(mktemp -d /tmp/seedeval.XXXXXX)
out=$(mktemp -d /tmp/seedout.XXXXXX)
rmdir "$wt"
git -C /repo worktree add -q "$wt" HEAD || exit 2
cleanup() { git -C /repo worktree remove --force "$wt" >/dev/null 2>&1; rm -rf "$out"; }
trap cleanup EXIT
export GOFLAGS=-mod=readonly GOPROXY=off GOSUMDB=off GOTOOLCHAIN=local
if [ -n "${SKIP_CONFIRM:-}" ]; then
  # the change was confirmed when it was archived: only build it and run the checks
  (cd "$wt" && git apply "$seed/patch.diff") || { echo "patch does not apply"; exit 2; }
  (cd "$wt" && go build ./...) || { echo "does not build"; exit 2; }
  echo "RESULT demo_without_exit=- suite_exit=- demo_with_exit=-"
  for p in "$@"; do
    (cd "$here" && VERIF_REPO="$wt" VERIF_EVIDENCE_DIR="$out/ev" VERIF_REPLAY_DIR="$out/replays" ./bin/vcheck run "$p" --tier "${TIER:-quick}" --workers "${WORKERS:-8}") >"$out/check_$p.log" 2>&1; rc=$?
    grep -c "^VIOLATION" "$out/check_$p.log" | sed "s/^/   violations reported: /"
    grep "^VIOLATION" "$out/check_$p.log" | cut -c1-400 | head -4
    echo "CHECK $p exit=$rc"
  done
  exit 0
fi
place=$(head -1 "$seed/demo_test.go" | sed -n 's,^// place at: *,,p')
[ -n "$place" ] || { echo "demo_test.go has no '// place at:' line"; exit 2; }
cp "$seed/demo_test.go" "$wt/$place"
pkg=./$(dirname "$place")/
echo "== demo WITHOUT the change (must pass)"
(cd "$wt" && go test -vet=off -count=1 -run ZZSeed "$pkg") >"$out/demo_without.log" 2>&1; r_without=$?
tail -2 "$out/demo_without.log"
echo "== applying patch"
(cd "$wt" && git apply "$seed/patch.diff") || { echo "patch does not apply"; exit 2; }
(cd "$wt" && go build ./...) || { echo "does not build"; exit 2; }
echo "== existing suite WITH the change (must pass)"
(cd "$wt" && go test -vet=off -count=1 -skip ZZSeed ./...) >"$out/suite.log" 2>&1; r_suite=$?
grep -v "no test files" "$out/suite.log" | grep -v "^ok" | head -5
echo "== demo WITH the change (must fail)"
(cd "$wt" && go test -vet=off -count=1 -run ZZSeed "$pkg") >"$out/demo_with.log" 2>&1; r_with=$?
tail -3 "$out/demo_with.log"
echo "RESULT demo_without_exit=$r_without suite_exit=$r_suite demo_with_exit=$r_with"
rm -f "$wt/$place"
for p in "$@"; do
  echo "== check $p against the change"
  (cd "$here" && VERIF_REPO="$wt" VERIF_EVIDENCE_DIR="$out/ev" VERIF_REPLAY_DIR="$out/replays" ./bin/vcheck run "$p" --tier "${TIER:-quick}" --workers "${WORKERS:-8}") >"$out/check_$p.log" 2>&1; rc=$?
  grep -c "^VIOLATION" "$out/check_$p.log" | sed "s/^/   violations reported: /"
  grep "^VIOLATION" "$out/check_$p.log" | cut -c1-260 | head -4
  grep "^INCONCLUSIVE\|^SPURIOUS\|^ENGINE" "$out/check_$p.log" | cut -c1-200 | head -3
  echo "CHECK $p exit=$rc"
done

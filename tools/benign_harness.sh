#!/bin/sh
# Runs ONE harness against archived benign changes (must stay quiet).
#   usage: tools/benign_harness.sh <property> <harness> <benign id>...   e.g. tools/benign_harness.sh C13 VerifC13_X C13 C13b C05
# One line per benign change: the alarm lines of the run (VIOLATION / INCONCLUSIVE / SPURIOUS / ENGINE-MISMATCH /
# VACUOUS / does not type-check) and its summary line. Used after a seeding round for every new or changed harness.
here=$(cd "$(dirname "$0")/.." && pwd)
p=$1; h=$2; shift 2
for b in "$@"; do
  r=$(cd "$here" && WORKERS=${WORKERS:-3} tools/try_patch.sh "$here/benign/$b/patch.diff" "$p" "$h" 2>&1 | grep -E '^VIOLATION|^INCONCLUSIVE|^SPURIOUS|^ENGINE|^VACUOUS|type-check|does not apply|done in' | cut -c1-200 | tr '\n' '|')
  echo "$b $p $h :: $r"
done

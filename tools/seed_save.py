#!/usr/bin/env python3
"""seed_save.py <seed-id> <property> <src SEED dir> <needs> <caught-by> <status>  -> /verif/seeded/<seed-id>/"""
import json, os, shutil, subprocess, sys
sid, prop, src, needs, caught, status = sys.argv[1:7]
here = os.path.dirname(os.path.dirname(os.path.abspath(__file__)))
dst = os.path.join(here, 'seeded', sid)
os.makedirs(dst, exist_ok=True)
for f in ('patch.diff', 'demo_test.go', 'README.md'):
    if os.path.exists(os.path.join(src, f)):
        shutil.copy(os.path.join(src, f), os.path.join(dst, f))
place = open(os.path.join(dst, 'demo_test.go')).readline().strip().replace('// place at: ', '')
base = subprocess.check_output(['git', '-C', '/repo', 'log', '-1', '--format=%h']).decode().strip()
meta = {
    "seed": sid, "property": prop, "base_commit_of_repo": base,
    "author": "fresh sub-agent given only the property record and a scratch worktree of /repo (nothing from /verif)",
    "needs_to_manifest": needs,
    "demonstration": {"file": "demo_test.go", "place_at": place, "run": "go test -vet=off -count=1 -run ZZSeed ./" + os.path.dirname(place) + "/"},
    "confirmed_by_coordinator": ["patch applies to a clean scratch worktree of /repo", "go build ./... ok", "existing suite (go test -vet=off -count=1 -skip ZZSeed ./...) passes with the change", "demonstration passes without the change and fails with it"],
    "what_was_run": "tools/seed_eval.sh seeded/%s %s  (scratch worktree, checks pointed at it with VERIF_REPO; equivalent to `git -C /repo apply patch.diff`, run the check, `git -C /repo checkout -- .`)" % (sid, prop),
    "detection": {"status": status, "caught_by": caught},
}
json.dump(meta, open(os.path.join(dst, 'meta.json'), 'w'), indent=1)
print("saved", dst)

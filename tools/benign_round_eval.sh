#!/bin/sh
# Evaluates one whole benign round: every /tmp/benign-C<NN><suffix>/BENIGN against
# the check of its own property and the neighbouring ones, from a frozen
# snapshot of /verif.   usage: tools/benign_round_eval.sh <suffix> [jobs] [ids...]
set -u
sfx=$1; jobs=${2:-5}; shift; [ $# -gt 0 ] && shift
here=$(cd "$(dirname "$0")/.." && pwd)
snap=${VERIF_SNAP:-/root/vsnap}
mkdir -p "$snap" && rsync -a --delete --exclude .git "$here"/ "$snap"/
out=/tmp/benign-round-$sfx; mkdir -p "$out"
neigh() {
  case $1 in
    C01) echo "C01 C06 C02 C16";; C02) echo "C02 C04 C08";; C03) echo "C03 C04 C16";; C04) echo "C04 C02 C03";;
    C05) echo "C05 C06 C01";; C06) echo "C06 C01 C05";; C07) echo "C07 C09 C08";; C08) echo "C08 C07 C09";;
    C09) echo "C09 C07 C08 C19";; C10) echo "C10 C04 C16 C07";; C11) echo "C11 C12 C19";; C12) echo "C12 C02 C11 C16";;
    C13) echo "C13 C15 C19";; C14) echo "C14 C15 C18";; C15) echo "C15 C14 C17";; C16) echo "C16 C02 C10 C12";;
    C17) echo "C17 C05 C09 C07";; C18) echo "C18 C20 C14";; C19) echo "C19 C13 C17 C09";; C20) echo "C20 C18";;
  esac
}
ids="$*"
if [ -z "$ids" ]; then
  for d in /tmp/benign-C??$sfx; do [ -f "$d/BENIGN/patch.diff" ] && ids="$ids $(basename "$d" | sed 's/^benign-//')"; done
fi
for id in $ids; do
  p=$(echo "$id" | cut -c1-3)
  echo "$id $(neigh "$p")"
done | xargs -P "$jobs" -L 1 sh -c 'id=$0; cd '"$snap"' && WORKERS=${WORKERS:-3} tools/benign_eval.sh /tmp/benign-$id/BENIGN "$@" > '"$out"'/$id.log 2>&1'
for id in $ids; do
  echo "== $id: $(grep '^RESULT\|^CHECK' "$out/$id.log" | tr '\n' ' ')"
  grep "^VIOLATION\|^INCONCLUSIVE\|^SPURIOUS\|^ENGINE\|^VACUOUS\|type-check" "$out/$id.log" | cut -c1-260 | head -6
done

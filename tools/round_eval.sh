#!/bin/sh
# Evaluates one whole seeding round: every /tmp/seed-C<NN><suffix>/SEED against
# the check of its own property and of the neighbouring properties that execute
# the same code. The checks are run from a frozen snapshot of /verif (so that
# /verif can be edited meanwhile).
#   usage: tools/round_eval.sh <suffix> [jobs] [ids...]      e.g. tools/round_eval.sh h 5
set -u
sfx=$1; jobs=${2:-5}; shift; [ $# -gt 0 ] && shift
here=$(cd "$(dirname "$0")/.." && pwd)
snap=${VERIF_SNAP:-/root/vsnap}
mkdir -p "$snap" && rsync -a --delete --exclude .git "$here"/ "$snap"/
out=${ROUND_OUT:-/tmp/round-$sfx}; mkdir -p "$out"
neigh() {
  case $1 in
    C01) echo "C01 C06 C02 C16";; C02) echo "C02 C04";; C03) echo "C03 C04";; C04) echo "C04 C02";;
    C05) echo "C05 C06";; C06) echo "C06 C01 C05";; C07) echo "C07 C09 C08";; C08) echo "C08 C07";;
    C09) echo "C09 C07 C19";; C10) echo "C10 C04 C16";; C11) echo "C11 C12 C19";; C12) echo "C12 C02";;
    C13) echo "C13 C15";; C14) echo "C14 C15 C18";; C15) echo "C15 C14";; C16) echo "C16 C02";;
    C17) echo "C17 C05";; C18) echo "C18 C20";; C19) echo "C19 C13";; C20) echo "C20 C18";;
  esac
}
ids="$*"
if [ -z "$ids" ]; then
  for d in /tmp/seed-C??$sfx; do [ -f "$d/SEED/patch.diff" ] && ids="$ids $(basename "$d" | sed 's/^seed-//')"; done
fi
for id in $ids; do
  p=$(echo "$id" | cut -c1-3)
  echo "$id $(neigh "$p")"
done | xargs -P "$jobs" -L 1 sh -c 'id=$0; cd '"$snap"' && WORKERS=${WORKERS:-3} tools/seed_eval.sh /tmp/seed-$id/SEED "$@" > '"$out"'/$id.log 2>&1'
for id in $ids; do
  p=$(echo "$id" | cut -c1-3)
  res=$(grep "^RESULT" "$out/$id.log" | sed 's/RESULT //')
  line=""
  for q in $(neigh "$p"); do
    rc=$(grep "^CHECK $q " "$out/$id.log" | sed 's/.*exit=//')
    line="$line $q=${rc:-?}"
  done
  echo "$id [$res]$line"
done

#!/bin/sh
# Runs ONE harness of a property against a patch applied to a scratch worktree of
# /repo (removed afterwards).  usage: tools/try_patch.sh <patch.diff> <property> <harness> [tier]
set -u
here=$(cd "$(dirname "$0")/.." && pwd)
patch=$1; prop=$2; h=$3; tier=${4:-quick}
wt=$(mktemp -d /tmp/trypatch.XXXXXX); out=$(mktemp -d /tmp/tryout.XXXXXX); rmdir "$wt"
git -C /repo worktree add -q --detach "$wt" HEAD || exit 2
trap 'git -C /repo worktree remove --force "$wt" >/dev/null 2>&1; rm -rf "$out"' EXIT
(cd "$wt" && git apply "$patch") || { echo "patch does not apply"; exit 2; }
cd "$here" && VERIF_REPO="$wt" VERIF_EVIDENCE_DIR="$out/ev" VERIF_REPLAY_DIR="$out/replays" ./bin/vcheck run "$prop" --tier "$tier" --harness "$h" --workers "${WORKERS:-4}" 2>&1 | grep -v "^  \.\.\." | cut -c1-300

#!/bin/sh
# Evaluates a BENIGN change (one that keeps the properties true): confirms that it
# builds and that the existing suite passes with it, then runs the given quick
# checks against it. Any VIOLATION reported here is a FALSE ALARM of the check.
#   usage: tools/benign_eval.sh <dir with patch.diff> <property id>...
set -u
here=$(cd "$(dirname "$0")/.." && pwd)
seed=$(cd "$1" && pwd); shift
wt=$(mktemp -d /tmp/benigneval.XXXXXX); out=$(mktemp -d /tmp/benignout.XXXXXX); rmdir "$wt"
git -C /repo worktree add -q "$wt" HEAD || exit 2
cleanup() { git -C /repo worktree remove --force "$wt" >/dev/null 2>&1; rm -rf "$out"; }
trap cleanup EXIT
export GOFLAGS=-mod=readonly GOPROXY=off GOSUMDB=off GOTOOLCHAIN=local
(cd "$wt" && git apply "$seed/patch.diff") || { echo "patch does not apply"; exit 2; }
(cd "$wt" && go build ./...) || { echo "does not build"; exit 2; }
(cd "$wt" && go test -vet=off -count=1 ./...) >"$out/suite.log" 2>&1; echo "RESULT suite_exit=$?"
grep -v "no test files" "$out/suite.log" | grep -v "^ok" | head -5
for p in "$@"; do
  (cd "$here" && VERIF_REPO="$wt" VERIF_EVIDENCE_DIR="$out/ev" VERIF_REPLAY_DIR="$out/replays" ./bin/vcheck run "$p" --tier quick --workers "${WORKERS:-8}") >"$out/check_$p.log" 2>&1; rc=$?
  grep "^VIOLATION\|^INCONCLUSIVE\|^SPURIOUS\|^ENGINE\|^VACUOUS\|type-check\|zz_verif.*:[0-9]" "$out/check_$p.log" | cut -c1-300 | head -6
  echo "CHECK $p exit=$rc"
done

#!/bin/sh
# Runs every property check of the given tier (default quick) one after the other
# and prints one summary line per property.   usage: tools/runall.sh [quick|thorough] [workers]
here=$(cd "$(dirname "$0")/.." && pwd); cd "$here"
tier=${1:-quick}; workers=${2:-16}
logdir=$(mktemp -d /tmp/runall.XXXXXX); echo "logs in $logdir"
for f in harness/props.d/C*.json; do
  p=$(basename "$f" .json)
  ./bin/vcheck run "$p" --tier "$tier" --workers "$workers" > "$logdir/$p.log" 2>&1; rc=$?
  echo "$p exit=$rc $(grep -c '^KNOWN-FINDING' $logdir/$p.log) known; $(grep 'tier=' $logdir/$p.log | sed 's/.*done in //')"
  grep "^VIOLATION\|^INCONCLUSIVE\|^SPURIOUS\|^ENGINE\|^VACUOUS" "$logdir/$p.log" | cut -c1-240
done

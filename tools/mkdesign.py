#!/usr/bin/env python3
"""Assembles DESIGN.md = DESIGN.head.md + generated sections (per-property claims from
harness/props.d, findings from known_findings.json, seeded changes from seeded/*/meta.json)
+ DESIGN.tail.md."""
import json, glob, os
here = os.path.dirname(os.path.dirname(os.path.abspath(__file__)))
R = lambda p: open(os.path.join(here, p)).read()
props = {os.path.basename(f)[:-5]: json.load(open(f)) for f in sorted(glob.glob(os.path.join(here, 'harness/props.d/C*.json')))}
titles = {json.loads(l)['id']: json.loads(l)['title'] for l in open(os.path.join(here, 'properties.jsonl'))}
ev = {}
for pid in props:
    p = os.path.join(here, 'evidence', pid + '.json')
    if os.path.exists(p):
        ev[pid] = json.load(open(p))
out = [R('DESIGN.head.md')]
out.append("\n--------------------------------------------------------------------------------\n\n## 6. Per property: what the solver decides, on which real code, within which bounds\n\n"
           "Generated from `harness/props.d/<ID>.json` (the same text feeds `MANIFEST.json`); path counts are those of the last quick run on the unchanged tree (`evidence/<ID>.json`). "
           "Every harness listed runs with 0 inconclusive paths and is explored exhaustively within its bounds.\n")
for pid in sorted(props):
    p = props[pid]
    out.append(f"\n### {pid} — {titles.get(pid,'')}\n")
    out.append(f"* **Claim.** {p.get('claim','')}\n")
    hs = []
    evh = {h['harness']: h for h in ev.get(pid, {}).get('coverage', {}).get('harnesses', [])}
    for h in p['harnesses']:
        t = '' if not h.get('tiers') else ' (' + '/'.join(h['tiers']) + ' only)'
        e = evh.get(h['fn'])
        n = f": {e['paths_explored']} paths, {e['queries']} queries" if e else ''
        hs.append(f"`{h['fn']}`{t}{n}")
    out.append("* **Harnesses** (package(s) " + ', '.join(sorted({'`'+h['pkg'].replace('metacontroller/','')+'`' for h in p['harnesses']})) + "): " + '; '.join(hs) + ".\n")
    fe = ev.get(pid, {}).get('coverage', {}).get('functions_encoded', [])
    if fe:
        short = [f.replace('metacontroller/pkg/', '') for f in fe if 'zz' not in f][:14]
        out.append(f"* **Real code executed** ({len(fe)} repo functions, first ones): " + ', '.join('`'+s+'`' for s in short) + ", …\n")
    b = p.get('bounds', {})
    out.append(f"* **Bounds.** quick: {b.get('quick','')}; thorough: {b.get('thorough','')}\n")
    if p.get('assumptions'):
        out.append("* **Assumptions / stubs.** " + '; '.join(p['assumptions']) + "\n")
    if p.get('outside'):
        out.append("* **Outside the claim.** " + '; '.join(p['outside']) + "\n")
k = json.load(open(os.path.join(here, 'known_findings.json')))
out.append("\n--------------------------------------------------------------------------------\n\n## 7. Defects found in metacontroller and what was done\n\n"
           "Every entry below was reported by a check on the then-unchanged tree, with a solver-produced input that reproduced against the native build. "
           "Repaired ones are minimal unguarded `fix:` commits in /repo (the 87-test baseline passes after each); the others are listed in `known_findings.json` and printed as `KNOWN-FINDING` lines.\n\n### 7.1 Repaired (`fix:` commits)\n\n")
for f in k['fixed']:
    out.append("* " + f.replace('fixed: ', '') + "\n")
out.append("\n### 7.2 Recorded as known findings (not repaired: no small, safe patch)\n\n| property | assertion label (fingerprint) | what fails |\n|---|---|---|\n")
seen = set()
for f in k['findings']:
    out.append(f"| {f['property']} | `{f['label']}` | {f['what']} |\n")
out.append(R('DESIGN.mid.md'))
out.append("\n| seed | property | what it needs to manifest | result | caught by |\n|---|---|---|---|---|\n")
for d in sorted(glob.glob(os.path.join(here, 'seeded/*/meta.json'))):
    m = json.load(open(d))
    out.append(f"| `{m['seed']}` | {m['property']} | {m['needs_to_manifest']} | {m['detection']['status']} | {m['detection']['caught_by']} |\n")
out.append(R('DESIGN.tail.md'))
open(os.path.join(here, 'DESIGN.md'), 'w').write(''.join(out))
print("DESIGN.md written,", sum(len(x) for x in out), "bytes")

#!/usr/bin/env python3
"""Regenerates MANIFEST.json from harness/props.json (claims, notes) so that it is always consistent."""
import json, os
here = os.path.dirname(os.path.dirname(os.path.abspath(__file__)))
import glob
props = {os.path.basename(f)[:-5]: json.load(open(f)) for f in glob.glob(os.path.join(here, 'harness/props.d/*.json'))}
allp = [json.loads(l)['id'] for l in open(os.path.join(here, 'properties.jsonl'))]
na_reasons = json.load(open(os.path.join(here, 'harness/not_applicable.json')))
TECH = "bounded symbolic execution of the real Go code (lowered to go/ssa) with every assertion decided per path by an SMT solver (cvc5); counterexamples replayed against the native build"
NOTE = ("Trusted base: the symbolic go/ssa executor and its library intrinsics/models (listed in the evidence file; cross-validated on every run by replaying "
        "solver-completed path witnesses against the natively compiled harness), the simulated API server in harness/overlay/pkg/zzverif/env, cvc5 1.0. "
        "The claim holds only within the bounds written to the evidence file.")
checks = []
for pid in allp:
    if pid not in props:
        continue
    p = props[pid]
    checks.append({
        "property_id": pid,
        "quick_cmd": f"./bin/vcheck run {pid} --tier quick",
        "thorough_cmd": f"./bin/vcheck run {pid} --tier thorough",
        "evidence_file": f"evidence/{pid}.json",
        "replay_cmd_template": "./bin/vcheck replay {path}",
        "engine": "vcheck",
        "level_claimed": {"category": "model_checking", "text": p.get("claim", ""), "design_ref": f"DESIGN.md §7 {pid}"},
        "level_note": NOTE + (" " + p["note"] if p.get("note") else ""),
        "technique": TECH + (("; " + p["technique_extra"]) if p.get("technique_extra") else ""),
    })
m = {
    "version": 1,
    "setup_cmd": "./setup.sh",
    "hooks": {"guard": "verif", "enable": "overlay only: harnesses, the simulated API server and constructors are injected with go/packages Overlay (engine) and `go test -overlay` (native replay); /repo carries no hook code",
              "baseline_off_cmd": "cd /repo && go test -vet=off -count=1 ./...", "source_commits": [], "add_only": True},
    "engines": [{"name": "vcheck", "path": "engine", "serves_properties": [c["property_id"] for c in checks],
                 "kind_free_text": "bounded symbolic executor for Go SSA (fork of golang.org/x/tools/go/ssa/interp v0.29.0) with String/Int/Bool SMT terms, DART-style re-execution, cvc5 back end, native replay"}],
    "checks": checks,
    "not_applicable": [{"property_id": pid, "reason": na_reasons.get(pid, "check not built yet (work in progress)")} for pid in allp if pid not in props],
    "notes": "See DESIGN.md. Known findings: known_findings.json. Seeded breaking changes and which checks catch them: seeded/ and DESIGN.md §10.",
}
json.dump(m, open(os.path.join(here, 'MANIFEST.json'), 'w'), indent=1)
print("MANIFEST.json:", len(checks), "checks,", len(m["not_applicable"]), "not applicable")
